(* C11 -- the compile pipeline is total: a code object or a located SyntaxError-family exception.

   Three parts, each a theorem:
   (a) the assembler (compile/instructions.go, Model/Assemble.v, tied by the byte-for-byte
       correspondence on generated instruction streams): for EVERY instruction stream whose
       relative jumps point forward it terminates without panic -- any length, any number of
       jumps that need an EXTENDED_ARG, any cascade of extensions -- and its result is consistent;
   (b) the conversion of stage failures into py.Compile's error (Model/Totality.v, tied by verbatim
       comparison of the four recover handlers and of MakeException/MakeSyntaxError with the
       regenerated text): the outcome is acceptable exactly when every failure raised inside a
       stage is a located SyntaxError-family exception; a Go runtime error, string or other payload
       anywhere surfaces as SystemError;
   (c) the regenerated inventory of explicit panic sites in parser/, ast/, symtable/, compile/:
       every site is one of the audited ones (per function and payload type, with multiplicity).
   Not proved: that the audited internal-invariant sites (payload string/error) and implicit
   run-time panics are unreachable, and that the lexer and parser loops terminate: searched by the
   exhaustive token enumeration, the mutation streams and the structured probes (tools/props/c11.py). *)
From Coq Require Import List Bool Arith NArith String.
Import ListNotations.
From GP Require Import Gen.Inventories Model.Assemble Proofs.Assemble Model.Totality Proofs.Totality.

(* ---- (a) *)
Theorem C11_assemble_never_panics : forall prog, fwd 0 (map fst prog) -> exists bytes, assemble_bytes prog = Some bytes.
Proof. exact assemble_never_panics. Qed.

Theorem C11_assemble_consistent : forall prog st', assemble (initial prog) = Some st' ->
  map knd st' = map fst prog /\ chain 0 st' /\
  forall i c, nth_error st' i = Some c ->
    match knd c with
    | KJabs _ d => forall cd, nth_error st' d = Some cd -> arg c = pos cd
    | KJrel _ d => forall cd, nth_error st' d = Some cd -> (i < d)%nat -> (pos cd = pos c + size c + arg c)%N
    | _ => True
    end.
Proof. exact assemble_consistent. Qed.

(* non-vacuity: a backward absolute jump, a forward relative one and a wide constant index *)
Example C11_assemble_example :
  assemble_bytes [(KJabs 113 2, 0); (KOp 1, 0); (KLabel, 0); (KJrel 110 4, 0); (KLabel, 0); (KArg 100, 70000)]%N
  = Some [113; 4; 0; 1; 110; 0; 0; 144; 1; 0; 100; 112; 17]%N.
Proof. vm_compute. reflexivity. Qed.

(* ---- (b) *)
Theorem C11_outcome_acceptable_iff : forall (Ast Sym : Type) (parse : stage Ast) symtab comp,
  acceptable (@compile_outcome Ast Sym parse symtab comp) = true <->
  stage_ok parser_payload_ok parse = true /\
  (forall ast, parse = Done ast -> stage_ok later_payload_ok (symtab ast) = true /\
     forall st, symtab ast = Done st -> stage_ok later_payload_ok (comp ast st) = true).
Proof. intros. apply outcome_acceptable_iff. Qed.

Theorem C11_internal_failure_is_visible : forall (Ast Sym : Type) (parse : stage Ast) symtab comp p,
  (p = PError \/ p = PString \/ p = POther \/ p = PNonExcType) ->
  (parse = Panicked p \/ exists ast, parse = Done ast /\ (symtab ast = Panicked p \/ exists st, symtab ast = Done st /\ comp ast st = Panicked p)) ->
  acceptable (@compile_outcome Ast Sym parse symtab comp) = false.
Proof. intros. eapply internal_failure_is_visible; eauto. Qed.

Open Scope string_scope.
(* the handlers and conversion functions the model was written from, verbatim *)
Definition audited_handlers : list (string * string * string) := [

  ("parser", "Parse", "defer func() { if r := recover(); r != nil { err = py.MakeSyntaxError(r, filename, lex.pos.Lineno, lex.pos.ColOffset, lex.lastLine) } }()");
  ("parser", "Lex", "defer func() { if r := recover(); r != nil { err = py.MakeSyntaxError(r, filename, lex.pos.Lineno, lex.pos.ColOffset, lex.lastLine) } }()");
  ("symtable", "NewSymTable", "defer func() { if r := recover(); r != nil { err = py.MakeException(r) } }()");
  ("compile", "compiler.compileAst", "defer func() { if r := recover(); r != nil { err = py.MakeException(r) } }()");
  ("py", "MakeException", "{ switch x := r.(type) { case *Exception: return x case *Type: if x.Flags&TPFLAGS_BASE_EXC_SUBCLASS != 0 { return exceptionNew(x, nil) } else { return ExceptionNewf(TypeError, ""exceptions must derive from BaseException"") } case error: return exceptionNew(SystemError, Tuple{String(x.Error())}) case string: return exceptionNew(SystemError, Tuple{String(x)}) default: return exceptionNew(SystemError, Tuple{String(fmt.Sprintf(""Unknown error %#v"", r))}) } }");
  ("py", "MakeSyntaxError", "{ e := MakeException(r) e.Dict[""filename""] = String(filename) e.Dict[""lineno""] = Int(lineno) e.Dict[""offset""] = Int(offset) e.Dict[""line""] = String(line) return e }")
].
Definition triple_eqb (a b : string * string * string) : bool :=
  let '(a1, a2, a3) := a in let '(b1, b2, b3) := b in String.eqb a1 b1 && String.eqb a2 b2 && String.eqb a3 b3.
Theorem C11_handlers_as_modelled :
  forallb (fun h => existsb (triple_eqb h) audited_handlers) recover_handlers = true /\
  forallb (fun h => existsb (triple_eqb h) recover_handlers) audited_handlers = true.
Proof. vm_compute. split; reflexivity. Qed.

(* ---- (c) explicit panic sites: (package, function, payload type, audited count) *)
Definition audited_panics : list (string * string * string * nat) := [
  ("ast", "Walk", "string", 1%nat);
  ("ast", "dumpItem", "error", 1%nat);
  ("compile", "Instructions.Assemble", "string", 1%nat);
  ("compile", "Instructions.stackDepthWalk", "string", 1%nat);
  ("compile", "JumpRel.Resolve", "string", 1%nat);
  ("compile", "compiler.Expr", "string", 11%nat);
  ("compile", "compiler.Jump", "string", 1%nat);
  ("compile", "compiler.NameOp", "string", 11%nat);
  ("compile", "compiler.Op", "string", 1%nat);
  ("compile", "compiler.OpArg", "string", 1%nat);
  ("compile", "compiler.Stmt", "string", 5%nat);
  ("compile", "compiler.compileAst", "string", 5%nat);
  ("compile", "compiler.compileFunc", "string", 1%nat);
  ("compile", "compiler.comprehensionGenerator", "string", 1%nat);
  ("compile", "compiler.getRefType", "string", 1%nat);
  ("compile", "compiler.importFrom", "string", 1%nat);
  ("compile", "compiler.makeClosure", "string", 1%nat);
  ("compile", "compiler.nestedSlice", "string", 2%nat);
  ("compile", "compiler.newCompilerScope", "error", 1%nat);
  ("compile", "compiler.newCompilerScope", "string", 2%nat);
  ("compile", "compiler.panicSyntaxErrorf", "*github.com/go-python/gpython/py.Exception", 1%nat);
  ("compile", "compiler.setQualname", "string", 2%nat);
  ("compile", "compiler.slice", "string", 1%nat);
  ("compile", "compiler.subscript", "string", 1%nat);
  ("compile", "opcodeStackEffect", "string", 1%nat);
  ("parser", "applyTrailers", "string", 1%nat);
  ("parser", "countIndent", "*github.com/go-python/gpython/py.Exception", 1%nat);
  ("parser", "yyLex.Lex", "string", 1%nat);
  ("parser", "yyLex.dequeue", "string", 1%nat);
  ("parser", "yyLex.readNumber", "error", 6%nat);
  ("parser", "yyLex.readNumber", "string", 1%nat);
  ("parser", "yyLex.readString", "string", 1%nat);
  ("parser", "yyParserImpl.Parse", "string", 2%nat);
  ("symtable", "SymTable.panicSyntaxErrorLinenof", "*github.com/go-python/gpython/py.Exception", 1%nat);
  ("symtable", "SymTable.panicSyntaxErrorf", "*github.com/go-python/gpython/py.Exception", 1%nat)
].
Definition count_site (pkg fn ty : string) : nat :=
  List.length (filter (fun s => let '(p, f, _, t) := s in String.eqb p pkg && String.eqb f fn && String.eqb t ty) panic_sites).
Definition site_within_audit (s : string * string * string * string) : bool :=
  let '(p, f, _, t) := s in
  existsb (fun a => let '(ap, af, at_, n) := a in String.eqb ap p && String.eqb af f && String.eqb at_ t && Nat.leb (count_site p f t) n) audited_panics.
Theorem C11_every_panic_site_is_audited : forallb site_within_audit panic_sites = true.
Proof. vm_compute. reflexivity. Qed.

Print Assumptions C11_assemble_never_panics.
Print Assumptions C11_assemble_consistent.
Print Assumptions C11_outcome_acceptable_iff.
Print Assumptions C11_internal_failure_is_visible.
Print Assumptions C11_handlers_as_modelled.
Print Assumptions C11_every_panic_site_is_audited.
