(* C09 -- Context Close/Done are safe under every interleaving with execution.
   The lifecycle program is REGENERATED from /repo/stdlib/stdlib.go into Gen/Lifecycle.v on
   every run; the theorems below are about that regenerated program, for any number of
   threads of any kinds (RunCode, ModuleInit, ResolveAndCompile, Close, <-Done()) and every
   interleaving of their atomic actions. *)
From Coq Require Import List Bool Arith.
Import ListNotations.
From GP Require Import Model.Lifecycle Proofs.LifecycleSafe.
From GP Require Gen.Lifecycle.

(* tie: the source currently denotes exactly the program the invariant was proved for *)
Theorem C09_program_is_expected : Gen.Lifecycle.prog = expected.
Proof. reflexivity. Qed.

(* no panic, Done not early, callbacks exactly once and never with an execution inside,
   Close returns only after everything admitted has finished -- in every reachable state *)
Theorem C09_safe : forall ks tr st,
  run (init Gen.Lifecycle.prog ks) tr = Some st -> bad st = false.
Proof. rewrite C09_program_is_expected. intros ks tr st H. exact (inv_not_bad _ (inv_reachable _ _ _ H)). Qed.

(* every request whose first action comes after a completed Close is refused with an
   ordinary error, changes nothing and panics nothing *)
Theorem C09_refuse_after_close : forall ks tr s ts i t s1 t1,
  run (init Gen.Lifecycle.prog ks) tr = Some (s, ts) ->
  once s = ODone -> nth_error ts i = Some t ->
  (tkind t = KRun \/ tkind t = KRes \/ tkind t = KMod) ->
  rem t = prog_of Gen.Lifecycle.prog (tkind t) ->
  step_thread i s t = Some (s1, t1) ->
  s1 = s /\ rem t1 = [] /\ refusals t1 = S (refusals t) /\ held t1 = held t.
Proof.
  rewrite C09_program_is_expected. intros ks tr s ts i t s1 t1 H.
  exact (inv_refuse_after_close s ts i t s1 t1 (inv_reachable _ _ _ H)).
Qed.

(* no deadlock: whenever some request, Close call, or Done-wait after a Close call is
   unfinished, some thread can take a step (bodies are single terminating steps) *)
Theorem C09_no_deadlock : forall ks tr s ts,
  run (init Gen.Lifecycle.prog ks) tr = Some (s, ts) ->
  (exists i t, nth_error ts i = Some t /\ rem t <> [] /\ (tkind t = KWait -> once s <> OIdle)) ->
  exists j st', step j (s, ts) = Some st'.
Proof.
  rewrite C09_program_is_expected. intros ks tr s ts H.
  exact (inv_progress s ts (inv_reachable _ _ _ H)).
Qed.

(* non-vacuity: a concrete interleaving of two runs, two closes and a Done-wait reaches a
   state where Close has completed, one request was admitted and finished before the
   callbacks, and the late request was refused *)
Example C09_nonvacuous :
  exists st, run (init Gen.Lifecycle.prog [KRun; KClose; KRun; KClose; KWait])
                 [0; 1; 1; 0; 0; 1; 1; 1; 1; 1; 3; 2; 4] = Some st
             /\ observe st = ([(true, 0); (true, 0); (true, 1); (true, 0); (true, 0)], 1, true, false).
Proof. eexists. split; vm_compute; reflexivity. Qed.

(* the search finds the two defects of the pinned (pre-fix) program: the theorem is not
   true of every program *)
Example C09_pinned_program_refuted :
  exists tr st, run (init pinned_buggy [KRun; KClose]) tr = Some st /\ bad st = true.
Proof. exists [0; 1; 1; 1; 0; 0; 1; 1]. eexists. split; vm_compute; reflexivity. Qed.

Print Assumptions C09_program_is_expected.
Print Assumptions C09_safe.
Print Assumptions C09_refuse_after_close.
Print Assumptions C09_no_deadlock.

(* stronger than the property asks: a Close call that has returned implies the context is
   fully closed (callbacks run, Done signalled) *)
Theorem C09_close_returns_closed : forall ks tr s ts i t,
  run (init Gen.Lifecycle.prog ks) tr = Some (s, ts) ->
  nth_error ts i = Some t -> tkind t = KClose -> rem t = [] -> done s = true /\ cb s = 1.
Proof.
  rewrite C09_program_is_expected. intros ks tr s ts i t H Hi Hk Hr.
  pose proof (inv_reachable _ _ _ H) as I.
  pose proof (inv_clfin _ I _ _ Hi Hk Hr) as Ho. simpl in Ho.
  pose proof (inv_once _ I) as Hon. simpl in Hon. rewrite Ho in Hon. tauto.
Qed.
Print Assumptions C09_close_returns_closed.
