(* C04 -- Call arguments bind to parameters exactly as Python's algorithm says.
   Theorems about the model of EvalCode's binding loop and of the call-site operand
   packing; the model is tied to the code by the exhaustive signature x call-shape
   correspondence (vm_compute) and CPython is the validated oracle for the bound values. *)
From Coq Require Import List Bool Arith NArith ZArith Lia ZifyN.
Import ListNotations.
From GP Require Import Base.Tactics Model.Bind Spec.BindSpec Proofs.Bind.
Ltac Zify.zify_post_hook ::= Z.to_euclidean_division_equations.
Local Open Scope nat_scope.

(* the call-site protocol round-trips as long as both counts fit a byte *)
Theorem C04_callsite_roundtrip : forall npos nkw, (npos < 256)%N -> (nkw < 256)%N ->
  decode_call (encode_call npos nkw) = (npos, nkw).
Proof. intros npos nkw H1 H2. unfold decode_call, encode_call. f_equal; lia. Qed.

(* ... and does not when a count needs more than a byte (the compiler does not reject such
   calls): a finding kept visible *)
Theorem C04_callsite_overflow_refuted : exists npos nkw, decode_call (encode_call npos nkw) <> (npos, nkw).
Proof. exists 256%N, 0%N. vm_compute. discriminate. Qed.

Theorem C04_make_function_roundtrip : forall npos nkw nann, (npos < 256)%N -> (nkw < 256)%N -> (nann < 32768)%N ->
  decode_mkfn (encode_mkfn npos nkw nann) = (npos, nkw, nann).
Proof. intros npos nkw nann H1 H2 H3. unfold decode_mkfn, encode_mkfn. f_equal; [f_equal|]; lia. Qed.

(* a successful binding leaves no parameter unbound: exactly one value per parameter, and the
   star containers exist exactly when the signature declares them *)
Lemma set_nth_length {A} (l : list A) i v : length (set_nth l i v) = length l.
Proof. revert i. induction l as [|x r IH]; intros [|i]; simpl; auto. Qed.

Lemma kw_fold_length s names kws : forall sl0 kd0 sl kd,
  fold_left (kw_step s names) kws (Some (sl0, kd0)) = Some (sl, kd) -> length sl = length sl0.
Proof.
  induction kws as [|k r IH]; intros sl0 kd0 sl kd H; simpl in H.
  - inversion H; subst; auto.
  - destruct (index_of k names) as [j|].
    + destruct (nth j sl0 None).
      * assert (E : fold_left (kw_step s names) r None = None) by (clear; induction r; simpl; auto). rewrite E in H. discriminate.
      * apply IH in H. rewrite set_nth_length in H. auto.
    + destruct (s_kwarg s).
      * apply IH in H. auto.
      * assert (E : fold_left (kw_step s names) r None = None) by (clear; induction r; simpl; auto). rewrite E in H. discriminate.
Qed.

Theorem C04_all_parameters_bound : forall s nargs kws slots star kw,
  bind_model s nargs kws = Bound slots star kw ->
  length slots = length (s_pos s ++ s_kwonly s) /\
  (star <> None <-> s_vararg s = true) /\ (kw <> None <-> s_kwarg s = true).
Proof.
  intros s nargs kws slots star kw H. unfold bind_model in H.
  destruct (fold_left _ kws _) as [[sl kd]|] eqn:F; [|discriminate].
  destruct (_ && negb (s_vararg s)); [discriminate|].
  match type of H with (if forallb ?f ?l then _ else _) = _ => destruct (forallb f l) eqn:A; [|discriminate] end.
  inversion H; subst; clear H. split; [|split].
  - apply kw_fold_length in F. unfold fill_kw, fill_pos.
    rewrite !map_length, !combine_length, !map_length, !combine_length, !seq_length, !Nat.min_id, F.
    rewrite app_length, map_length, seq_length, repeat_length.
    assert (Nat.min nargs (length (s_pos s)) <= length (s_pos s ++ s_kwonly s)) by (rewrite app_length; lia).
    lia.
  - destruct (s_vararg s); split; intros; congruence.
  - destruct (s_kwarg s); split; intros; congruence.
Qed.

(* the binding loop IS Python's binding rule: for every signature with distinct parameter names, every
   number of positional arguments and every list of distinct keywords (repeated keywords are a compile-time
   error), the loop's outcome - the value of every parameter, *args, **kwargs, or TypeError - is the one
   the per-slot rule of Spec/BindSpec.v dictates *)
Theorem C04_binding_rule : forall s nargs kws, NoDup (s_pos s ++ s_kwonly s) -> NoDup kws ->
  bind_model s nargs kws = spec_bind s nargs kws.
Proof. intros s nargs kws H1 H2. apply bind_model_spec; assumption. Qed.

(* the rule itself, read off on one call: defaults fill exactly the unsupplied trailing parameters *)
Example C04_rule_nonvacuous :
  let s := {| s_pos := [1; 2; 7]; s_ndefs := 2; s_vararg := false; s_kwonly := [4]; s_kwdefs := []; s_kwarg := false |} in
  NoDup (s_pos s ++ s_kwonly s) /\ spec_bind s 2 [4] = Bound [100; 101; 307; 204] None None /\
  spec_bind s 2 [2] = BTypeError /\ spec_bind s 1 [] = BTypeError.
Proof. cbv zeta. split; [repeat constructor; cbn; intuition discriminate|]. vm_compute. auto. Qed.

Example C04_nonvacuous :
  bind_model {| s_pos := [1; 2]; s_ndefs := 1; s_vararg := true; s_kwonly := [4; 5]; s_kwdefs := [5]; s_kwarg := true |} 3 [4; 9]
  = Bound [100; 101; 204; 305] (Some [102]) (Some [(9, 209)]).
Proof. vm_compute. reflexivity. Qed.

Print Assumptions C04_callsite_roundtrip.
Print Assumptions C04_make_function_roundtrip.
Print Assumptions C04_all_parameters_bound.
Print Assumptions C04_binding_rule.
