(* C16 -- Attribute lookup follows instance, then C3 MRO; hierarchies without a consistent
   linearisation are rejected.  Model/Mro.v is hand-written from py/type.go (pmerge,
   mro_implementation) and py/internal.go (GetAttrString); it is tied to the code by the
   correspondence harness (class DAG programs). *)
From Coq Require Import List Bool Arith.
Import ListNotations.
From GP Require Import Model.Mro Proofs.Mro.

(* an accepted class has a consistent linearisation: itself first, the MRO of every base and
   the declared order of the bases preserved, exactly its ancestors, no duplicates *)
Theorem C16_linearization : forall c bs bms L,
  mro_of c bs bms = Some L ->
  Forall (fun s => NoDup s) bms -> ~ In c (concat bms) -> ~ In c bs ->
  exists L', L = c :: L' /\
    (forall m, In m bms -> subseq m L') /\ subseq bs L' /\
    (forall x, In x L' <-> In x bs \/ exists m, In m bms /\ In x m) /\
    NoDup L.
Proof. exact mro_of_linearization. Qed.

(* contrapositive: if no list can preserve the bases' MROs and the declared order, the class
   is rejected (TypeError) *)
Theorem C16_reject : forall c bs bms,
  Forall (fun s => NoDup s) bms -> ~ In c (concat bms) -> ~ In c bs ->
  (forall L', ~ ((forall m, In m bms -> subseq m L') /\ subseq bs L')) ->
  mro_of c bs bms = None.
Proof.
  intros c bs bms ND H1 H2 Hno. destruct (mro_of c bs bms) as [L|] eqn:E; auto.
  destruct (mro_of_linearization _ _ _ _ E ND H1 H2) as [L' [_ [Ha [Hb _]]]].
  exfalso. apply (Hno L'). split; auto.
Qed.

(* lookup: the instance's own attribute first, else the FIRST definition along the MRO *)
Theorem C16_lookup : forall inst cls mro k v,
  getattr_instance inst cls mro k = Some v <->
  dget inst k = Some v \/
  (dget inst k = None /\ exists pre c post, mro = pre ++ c :: post /\
     (forall c', In c' pre -> dget (nth c' cls []) k = None) /\ dget (nth c cls []) k = Some v).
Proof. exact getattr_first_definition. Qed.

(* non-vacuity: the diamond and a rejected hierarchy *)
Example C16_diamond : build_mros [[]; [0]; [0]; [1; 2]] 0 [] = inl [[0]; [1; 0]; [2; 0]; [3; 1; 2; 0]].
Proof. vm_compute. reflexivity. Qed.
Example C16_rejected : build_mros [[]; [0]; [0; 1]] 0 [] = inr 2.
Proof. vm_compute. reflexivity. Qed.

Print Assumptions C16_linearization.
Print Assumptions C16_reject.
Print Assumptions C16_lookup.
