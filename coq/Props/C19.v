(* C19 -- a module body runs at most once per context; all importers share the module.
   Model/Import.v: the store is consulted first and the module is registered before its body
   runs (as ModuleInit/NewModule do); tied to the code by the module-graph correspondence. *)
From Coq Require Import List Bool Arith.
Import ListNotations.
From GP Require Import Model.Import Proofs.Import.

Theorem C19_body_at_most_once : forall fuel g reqs,
  NoDup (snd (run_imports fuel g reqs)) /\
  incl (snd (run_imports fuel g reqs)) (fst (run_imports fuel g reqs)).
Proof. exact body_runs_at_most_once. Qed.

Theorem C19_requested_module_is_shared : forall fuel g st m, inv st -> fuel <> 0 ->
  In m (fst (import_mod fuel g st m)).
Proof. exact import_registers. Qed.

(* non-vacuity: a cycle 0 -> 1 -> 2 -> 0 plus a diamond; every body once, in first-import order *)
Example C19_nonvacuous :
  let g := fun m => match m with 0 => [1; 3] | 1 => [2; 3] | 2 => [0] | _ => [] end in
  run_imports 10 g [0; 2; 1; 0] = ([3; 2; 1; 0], [3; 2; 1; 0]).
Proof. vm_compute. reflexivity. Qed.

Print Assumptions C19_body_at_most_once.
Print Assumptions C19_requested_module_is_shared.
