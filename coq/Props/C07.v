(* C07 -- Integer arithmetic is exact and independent of internal representation.
   The word x word paths are the go2v translation of py/int.go regenerated on every run
   (Gen/py_int.v); BigInt paths and dispatch are the hand-written Model/IntDispatch.v, tied
   by correspondence. *)
From Coq Require Import ZArith Bool String.
From GP Require Import Base.Go2v Spec.IntSpec Model.IntDispatch Proofs.IntWord Proofs.IntDispatch.
From GP Require Gen.py_int.
Open Scope Z_scope.

(* every binary operator, every magnitude, all four representation combinations: the exact
   value Python defines (or its exception), in canonical representation *)
Theorem C07_binop : forall op x y, wf x -> wf y -> shift_ok op (val y) ->
  abs_res (py_binop op x y) = Some (spec_binop op (val x) (val y)) /\ canonical_res (py_binop op x y).
Proof. exact py_binop_correct. Qed.

Theorem C07_unop : forall op x, wf x ->
  abs_res (py_unop op x) = Some (spec_unop op (val x)) /\ canonical_res (py_unop op x) \/
  (op = UAbs /\ exists a, x = B a /\ 0 <= a /\ py_unop op x = RInt (B a)).
Proof. exact py_unop_correct. Qed.

Theorem C07_pow3 : forall x y m,
  abs_res (py_pow3 x y m) = Some (spec_pow3 (val x) (val y) (val m)) /\ canonical_res (py_pow3 x y m).
Proof. exact py_pow3_correct. Qed.

(* the translated overflow guards are exactly the no-overflow conditions *)
Theorem C07_guards : forall a b, word a -> word b ->
  py_int.intAdd a b = Some (maybe_int (a + b)) /\
  py_int.intSub a b = Some (maybe_int (a - b)) /\
  py_int.intMul a b = Some (maybe_int (a * b)) /\
  py_int.intLshift a b = (if b <? 0 then Some (VNil, VErr "ValueError:negative shift count")
                          else Some (maybe_int (a * 2 ^ b), VNil)) /\
  py_int.divMod a b = (if b =? 0 then Some (VNil, VNil, VErr "ZeroDivisionError:division by zero")
                       else Some (maybe_int (a / b), VInt (a mod b), VNil)).
Proof.
  intros a b Ha Hb. repeat split.
  - exact (intAdd_exact a b Ha Hb). - exact (intSub_exact a b Ha Hb). - exact (intMul_exact a b Ha Hb).
  - exact (intLshift_exact a b Ha Hb). - exact (divMod_exact a b Ha Hb).
Qed.

(* partial: shift counts that do not fit a machine word are reported as OverflowError
   (Python: 0 / -1 for >>) -- a listed finding; the full statement without [shift_ok] is false *)
Theorem C07_shift_huge_count_refuted : exists a b,
  abs_res (py_binop ORshift (W a) (B b)) = Some (SErr "OverflowError") /\
  exists z, spec_binop ORshift a b = SInt z.
Proof. exact rshift_huge_count_refuted. Qed.

(* non-vacuity: boundary operands in mixed representations *)
Example C07_ex1 : py_binop OSub (W 9223372036854775807) (W (-1)) = RInt (B 9223372036854775808).
Proof. vm_compute. reflexivity. Qed.
Example C07_ex2 : py_binop OMul (W (-9223372036854775808)) (W 2) = RInt (B (-18446744073709551616)).
Proof. vm_compute. reflexivity. Qed.
Example C07_ex3 : py_binop OFloorDiv (W (-9223372036854775808)) (W (-1)) = RInt (B 9223372036854775808).
Proof. vm_compute. reflexivity. Qed.
Example C07_ex4 : py_binop OAdd (B 9223372036854775808) (W (-1)) = RInt (W 9223372036854775807).
Proof. vm_compute. reflexivity. Qed.

Print Assumptions C07_binop.
Print Assumptions C07_unop.
Print Assumptions C07_pow3.
Print Assumptions C07_guards.
