(* C18 -- compilation is a deterministic, side-effect-free function of its input.

   What can make two compilations of the same input differ: (1) iterating over a Go map, whose
   order the runtime randomises; (2) reading a clock, a random source, the environment or a
   goroutine schedule; (3) state that survives a compilation in a package-level variable.
   Gen/Inventories.v is regenerated from the type-checked source of parser/, ast/, symtable/ and
   compile/ on every run and lists every site of each kind.  The theorems below say:
     - every map-range loop in the pipeline is, verbatim, one of the loops modelled in
       Model/MapOrder.v (or Model/Symtable.v) and that model's result is the same for every
       iteration order (all permutations of the key list, any map size);
     - there is no site of kind (2) outside the AST debug printer and the legacy-compiler helper;
     - no package-level variable of the pipeline is written after initialisation except the
       yacc debug level, none has a type with interior mutability, and the only methods called on
       package-level variables are regexp matches.
   The repetition / interleaving / 16-goroutine harness (tools/props/c18.py) is the search for a
   failing input and the check that the modelled loops are what decides the code object. *)
From Coq Require Import List Bool Arith NArith String Permutation.
Import ListNotations.
From GP Require Import Gen.Inventories Model.Symtable Model.MapOrder Proofs.Symtable Proofs.MapOrder.
Open Scope string_scope.

(* ---- (1) map iteration: the audited loops, verbatim, each with the model that covers it *)
Inductive loop_model := MSetUpdate | MCells | MUpdate1 | MUpdate2 | MKeysSorted | MFind | MInvert.

(* (package, function, loop text, required text right after the loop, model) *)
Definition audited_loops : list (string * string * string * string * loop_model) := [
  ("parser", "init", "for k, v := range operators { tokenToString[v] = k }", "", MInvert);
  ("parser", "init", "for k, v := range tokens { tokenToString[v] = k }", "", MInvert);
  ("symtable", "StringSet.Update", "for elem := range other { s[elem] = struct{}{} }", "", MSetUpdate);
  ("symtable", "AnalyzeCells", "for name, scope := range scopes { if scope != ScopeLocal { continue } if !free.Contains(name) { continue } scopes[name] = ScopeCell free.Discard(name) }", "", MCells);
  ("symtable", "Symbols.Update", "for name, symbol := range symbols { symbol.Scope = scopes[name] symbols[name] = symbol }", "", MUpdate1);
  ("symtable", "Symbols.Update", "for name := range free { if symbol, ok := symbols[name]; ok { if classflag && (symbol.Flags&(DefBound|DefGlobal)) != 0 { symbol.Flags |= DefFreeClass symbols[name] = symbol } continue } if !bound.Contains(name) { continue } symbols[name] = Symbol{ Scope: ScopeFree, } }", "", MUpdate2);
  ("symtable", "SymTable.AnalyzeBlock", "for name := range st.Symbols { names = append(names, name) }", "sort.Strings(names)", MKeysSorted);
  ("symtable", "SymTable.Find", "for name, v := range st.Symbols { if v.Scope == scopeType || (v.Flags&flag) != 0 { out = append(out, name) } }", "sort.Strings(out) ; return out", MFind)
].

Definition site_audited (s : string * string * string * string * string * string) : bool :=
  let '(pkg, fn, _, _, loop, follow) := s in
  existsb (fun a => let '(p, f, l, fo, _) := a in
    String.eqb p pkg && String.eqb f fn && String.eqb l loop && String.prefix fo follow) audited_loops.

Theorem C18_every_map_range_is_modelled : forallb site_audited map_ranges = true.
Proof. vm_compute. reflexivity. Qed.

(* the order-independence theorem of each model, for every map content and every two orders *)
Theorem C18_set_update : forall s l l', Permutation l l' -> feq (set_update s l) (set_update s l').
Proof. exact set_update_order_independent. Qed.
Theorem C18_analyze_cells : forall st l l', Permutation l l' -> ceq (analyze_cells st l) (analyze_cells st l').
Proof. exact analyze_cells_order_independent. Qed.
Theorem C18_update1 : forall scopes sy l l', Permutation l l' -> feq (update1 scopes sy l) (update1 scopes sy l').
Proof. exact update1_order_independent. Qed.
Theorem C18_update2 : forall cf bound sy l l', Permutation l l' -> feq (update2 cf bound sy l) (update2 cf bound sy l').
Proof. exact update2_order_independent. Qed.
(* AnalyzeBlock visits the names in sorted order (the map is only read to collect its keys): the first rejected
   declaration, which the error message names, does not depend on map order either.  (Before the repair the loop
   ranged over the map itself: the verdict was order-independent -- next theorem -- but the NAME in the message was not.) *)
Theorem C18_sorted_keys : forall l l', Permutation l l' -> sorted_keys l = sorted_keys l'.
Proof. exact sorted_keys_order_independent. Qed.
Theorem C18_analyze_block : forall bn ne syms syms', Permutation syms syms' -> NoDup (map fst syms) ->
  forall b, beq (analyze_block bn ne b syms) (analyze_block bn ne b syms').
Proof. exact analyze_block_order_independent. Qed.
Theorem C18_find : forall sy st fl l l', Permutation l l' -> find_names sy st fl l = find_names sy st fl l'.
Proof. exact find_order_independent. Qed.
Theorem C18_invert : forall m l l', Permutation l l' -> NoDup (map snd l) -> feq (invert m l) (invert m l').
Proof. exact invert_order_independent. Qed.

(* the side condition of C18_invert holds of the two map literals parser.init inverts *)
Fixpoint nodupb (l : list string) : bool :=
  match l with [] => true | x :: r => negb (existsb (String.eqb x) r) && nodupb r end.
Lemma nodupb_NoDup l : nodupb l = true -> NoDup l.
Proof.
  induction l as [|x r IH]; simpl; intros H; [constructor|].
  apply andb_true_iff in H. destruct H as [A B]. constructor; auto.
  intros Hin. apply negb_true_iff in A. assert (E : existsb (String.eqb x) r = true).
  { apply existsb_exists. exists x. split; auto. apply String.eqb_refl. } congruence.
Qed.
Theorem C18_token_values_distinct : NoDup token_map_values.
Proof. apply nodupb_NoDup. vm_compute. reflexivity. Qed.

(* ---- (2) clocks, randomness, environment, goroutines *)
Definition nondet_allowed (u : string * string * string) : bool :=
  let '(pkg, fn, what) := u in
  (String.eqb pkg "ast" && String.eqb fn "dump" && String.prefix "reflect." what)       (* ast.Dump, debug output only *)
  || (String.eqb pkg "compile" && String.eqb fn "LegacyCompile").                      (* helper that shells out to CPython 3.4; not on py.Compile's path *)
Theorem C18_no_nondeterminism_source : forallb nondet_allowed nondet_uses = true.
Proof. vm_compute. reflexivity. Qed.

(* ---- (3) state that outlives a compilation *)
Definition pipeline_pkg (p : string) : bool :=
  String.eqb p "parser" || String.eqb p "ast" || String.eqb p "symtable" || String.eqb p "compile".
Definition write_allowed (w : string * string * string) : bool :=
  let '(pkg, v, fn) := w in
  negb (pipeline_pkg pkg) || (String.eqb pkg "parser" && String.eqb v "yyDebug" && String.eqb fn "SetDebug").
Theorem C18_no_state_left_behind :
  forallb write_allowed pkg_writes = true /\ stateful_vars = [] /\
  forallb (fun c => let '(pkg, _, m) := c in String.eqb pkg "parser" && String.eqb m "FindString") pkg_var_method_calls = true.
Proof. vm_compute. repeat split. Qed.

(* non-vacuity: a five-symbol scope in two orders; the model really updates *)
Example C18_nonvacuous :
  let sy := fun k => if Nat.ltb k 5 then Some (ScopeLocal, if Nat.even k then DefLocal else DefUse) else None in
  find_names sy ScopeLocal 0%N [3; 1; 4; 0; 2] = [0; 1; 2; 3; 4] /\
  find_names sy ScopeInvalid DefLocal [4; 0; 3; 2; 1] = [0; 2; 4] /\
  map (update2 true (fun _ => true) sy [7; 2; 1]) [1; 2; 7; 8] = [Some (ScopeLocal, DefUse); Some (ScopeLocal, N.lor DefLocal DefFreeClass); Some (ScopeFree, 0%N); None].
Proof. vm_compute. repeat split. Qed.

Print Assumptions C18_every_map_range_is_modelled.
Print Assumptions C18_set_update.
Print Assumptions C18_analyze_cells.
Print Assumptions C18_update1.
Print Assumptions C18_update2.
Print Assumptions C18_analyze_block.
Print Assumptions C18_sorted_keys.
Print Assumptions C18_find.
Print Assumptions C18_invert.
Print Assumptions C18_token_values_distinct.
Print Assumptions C18_no_nondeterminism_source.
Print Assumptions C18_no_state_left_behind.
