(* C13 -- Indexing and slicing follow Python's sequence model for all indices.
   Slice.GetIndices is translated from py/slice.go by go2v on every run (Gen/py_slice.v); the
   unbounded theorem is about the structured model (Model/Slice.v), and the regenerated
   translation is compared with that model exhaustively on the boundary lattice inside Coq. *)
From Coq Require Import ZArith Bool List Lia String.
Import ListNotations.
From GP Require Import Base.Go2v Base.Tactics Spec.SliceSpec Spec.ListSpec Model.Slice Model.ListOps Proofs.Slice Proofs.ListOps Proofs.IntWord.
From GP Require Gen.py_slice Gen.py_range.
Open Scope Z_scope.

(* slice normalisation = Python's clipping, for bounds and steps of any magnitude or None *)
Theorem C13_indices : forall len start stop step, 0 <= len < IntMax ->
  match slice_bounds len start stop step with
  | None => get_indices len start stop step = None
  | Some (a, b, s) =>
      get_indices len start stop step = Some (a, b, clamp_step s, slice_count a b s) /\
      (clamp_step s = s \/ slice_count a b s <= 1) /\ ((0 <? clamp_step s) = (0 <? s))
  end.
Proof. exact get_indices_spec. Qed.

(* the count is exactly the number of indices the definition of slicing selects *)
Theorem C13_count : forall a b s k, s <> 0 -> 0 <= k ->
  (k < slice_count a b s <-> (if 0 <? s then a + k * s < b else a + k * s > b)).
Proof. exact slice_count_spec. Qed.

(* the element loop of list/tuple/str slicing reads exactly those indices, in order *)
Theorem C13_loop : forall (A : Type) (d : A) l i step n,
  loop_get d l i step n = getslice d l (map (fun k => i + Z.of_nat k * step) (seq 0 n)).
Proof. intros. apply loop_get_spec. Qed.

(* tie of the regenerated translation to the structured model: exhaustive on the lattice
   lengths 0..7 x {None, -9..9, +-(2^62), +-(2^63-1), +-2^63, +-2^64}^3  (finite domain) *)
Definition lat_vals : list (option Z) :=
  None :: map Some ([-9; -8; -7; -6; -5; -4; -3; -2; -1; 0; 1; 2; 3; 4; 5; 6; 7; 8; 9] ++
    [4611686018427387904; -4611686018427387904; 9223372036854775807; -9223372036854775807;
     9223372036854775808; -9223372036854775808; 18446744073709551616; -18446744073709551616]).
Definition lat_lens : list Z := [0; 1; 2; 3; 4; 5; 6; 7].

Definition gen_agrees (len : Z) (a b c : option Z) : bool :=
  match py_slice.GetIndices a b c len, get_indices len a b c with
  | Some (x, y, s, n, VNil), Some (x', y', s', n') => (x =? x') && (y =? y') && (s =? s') && (n =? n')
  | Some (_, _, _, _, VErr e), None => String.eqb e "ValueError"
  | _, _ => false
  end.

Definition lattice_ok : bool :=
  forallb (fun len => forallb (fun a => forallb (fun b => forallb (fun c => gen_agrees len a b c)
     lat_vals) lat_vals) lat_vals) lat_lens.

Theorem C13_gen_agrees_on_lattice : lattice_ok = true.
Proof. vm_compute. reflexivity. Qed.

(* range length (go2v translation of computeRangeLength) = len(range(start, stop, step)) as long
   as stop - start does not overflow a word *)
Theorem C13_range_length : forall start stop step, word start -> word stop -> word step ->
  step <> 0 -> step <> IntMin -> word (stop - start) -> word (start - stop) ->
  py_range.computeRangeLength start stop step = Some (range_len start stop step).
Proof.
  intros start stop step Ha Hb Hs H0 Hm Hd Hd'. unfold py_range.computeRangeLength, range_len, quot64.
  assert (Hneg : wrap64 (- step) = - step) by (apply wrap64_id; word_lia).
  rewrite Hneg.
  destruct (step >? 0) eqn:S; cbv zeta.
  - assert (S' : (0 <? step) = true) by lia. rewrite S'.
    destruct (start >=? stop) eqn:E; destruct (stop <=? start) eqn:E'; try lia; try reflexivity.
    assert (Z0 : (step =? 0) = false) by lia. rewrite Z0.
    rewrite (wrap64_id (stop - start)) by auto. rewrite (wrap64_id (stop - start - 1)) by word_lia.
    rewrite Z.quot_div_nonneg by lia.
    assert (W : word ((stop - start - 1) / step)).
    { unfold word, IntMin, IntMax in *. pose proof (Z.div_pos (stop - start - 1) step ltac:(lia) ltac:(lia)).
      pose proof (Z.div_le_upper_bound (stop - start - 1) step 9223372036854775806 ltac:(lia) ltac:(nia)). lia. }
    rewrite (wrap64_id _ W). rewrite wrap64_id; [reflexivity|].
    unfold word, IntMin, IntMax in *.
    pose proof (Z.div_le_upper_bound (stop - start - 1) step 9223372036854775806 ltac:(lia) ltac:(nia)).
    pose proof (Z.div_pos (stop - start - 1) step ltac:(lia) ltac:(lia)). lia.
  - assert (S' : (0 <? step) = false) by lia. rewrite S'.
    destruct (stop >=? start) eqn:E; destruct (start <=? stop) eqn:E'; try lia; try reflexivity.
    assert (Z0 : (- step =? 0) = false) by lia. rewrite Z0.
    rewrite (wrap64_id (start - stop)) by auto. rewrite (wrap64_id (start - stop - 1)) by word_lia.
    rewrite Z.quot_div_nonneg by lia.
    unfold word, IntMin, IntMax in *.
    pose proof (Z.div_le_upper_bound (start - stop - 1) (- step) 9223372036854775806 ltac:(lia) ltac:(nia)).
    pose proof (Z.div_pos (start - stop - 1) (- step) ltac:(lia) ltac:(lia)).
    rewrite (wrap64_id ((start - stop - 1) / - step)) by (unfold word, IntMin, IntMax; lia).
    rewrite wrap64_id by (unfold word, IntMin, IntMax; lia). reflexivity.
Qed.

(* ranges wider than a word overflow the length computation: a finding, kept visible *)
Theorem C13_range_length_wide_refuted : exists start stop step,
  py_range.computeRangeLength start stop step <> Some (range_len start stop step).
Proof. exists (-9223372036854775808), 9223372036854775807, 1. vm_compute. discriminate. Qed.

(* ---- the element loops of list / tuple on top of the slice normalisation (Model/ListOps.v, tied to
   List.M__getitem__ / M__setitem__ / M__delitem__ / Tuple.M__getitem__ by the harness) compute Python's
   sequence model (Spec/ListSpec.v) for bounds and steps of any magnitude, on lists of any length below
   the word bound, and never reach a Go index or slice-bounds panic. *)

(* x[i:j:k]: the selected elements in selection order; zero step is ValueError *)
Theorem C13_list_getslice : forall (A : Type) (l : list A) start stop step, zlen l < IntMax ->
  match slice_indices (zlen l) start stop step with
  | None => list_getslice l start stop step = ValueErr
  | Some idx => exists r, list_getslice l start stop step = Ok r /\ py_get l idx r
  end.
Proof. intros. apply list_getslice_spec. assumption. Qed.

(* del x[i:j:k]: exactly the selected positions disappear, the rest keeps its order (also for negative steps) *)
Theorem C13_list_delslice : forall (A : Type) (l : list A) start stop step, zlen l < IntMax ->
  match slice_indices (zlen l) start stop step with
  | None => list_delslice l start stop step = ValueErr
  | Some idx => list_delslice l start stop step = Ok (py_del l idx)
  end.
Proof. intros. apply list_delslice_spec. assumption. Qed.

(* x[i:j] = t replaces the slice; x[i:j:k] = t requires len(t) = number of selected positions, writes t[n] to the
   n-th selected position and leaves every other position unchanged *)
Theorem C13_list_setslice : forall (A : Type) (l new : list A) start stop step, zlen l < IntMax ->
  match slice_bounds (zlen l) start stop step with
  | None => list_setslice l new start stop step = ValueErr
  | Some (a, b, s) =>
      if s =? 1 then list_setslice l new start stop step = Ok (py_set1 l new a b)
      else if zlen new =? slice_count a b s
      then exists r, list_setslice l new start stop step = Ok r /\
                     py_setx l new (idx_of a s (Z.to_nat (slice_count a b s))) r
      else list_setslice l new start stop step = ValueErr
  end.
Proof. intros. apply list_setslice_spec. assumption. Qed.

(* x[i], x[i] = v, del x[i]: negative indices count from the end, anything outside is IndexError *)
Theorem C13_list_items : forall (A : Type) (l : list A) i v,
  match norm_index (zlen l) i with
  | None => list_getitem l i = IndexErr /\ list_setitem l i v = IndexErr /\ list_delitem l i = IndexErr
  | Some j =>
      0 <= j < zlen l /\
      (exists x, nth_error l (Z.to_nat j) = Some x /\ list_getitem l i = Ok [x]) /\
      list_setitem l i v = Ok (set_nth l (Z.to_nat j) v) /\
      list_delitem l i = Ok (py_del l [j])
  end.
Proof. intros. apply list_items_spec. Qed.

Theorem C13_list_ops_never_panic : forall (A : Type) (l new : list A) start stop step i v, zlen l < IntMax ->
  list_getslice l start stop step <> Panic /\ list_setslice l new start stop step <> Panic /\
  list_delslice l start stop step <> Panic /\ list_getitem l i <> Panic /\ list_setitem l i v <> Panic /\
  list_delitem l i <> Panic.
Proof. intros. apply list_ops_never_panic. assumption. Qed.

Example C13_list_nonvacuous :
  list_delslice [10; 11; 12; 13; 14; 15] None None (Some (-2)) = Ok [10; 12; 14] /\
  list_setslice [10; 11; 12; 13; 14] [90; 91; 92] None None (Some 2) = Ok [90; 11; 91; 13; 92] /\
  list_getslice [10; 11; 12; 13; 14] (Some (-100)) (Some 18446744073709551616) (Some 3) = Ok [10; 13] /\
  list_setslice [10; 11; 12] [90] (Some 5) (Some 1) None = Ok [10; 11; 12; 90].
Proof. vm_compute. repeat split. Qed.

Example C13_nonvacuous :
  get_indices 5 (Some (-100)) None (Some (-2)) = None \/
  slice_indices 5 (Some 4) None (Some (-2)) = Some [4; 2; 0].
Proof. right. vm_compute. reflexivity. Qed.

Print Assumptions C13_indices.
Print Assumptions C13_count.
Print Assumptions C13_loop.
Print Assumptions C13_gen_agrees_on_lattice.
Print Assumptions C13_range_length.
Print Assumptions C13_list_getslice.
Print Assumptions C13_list_delslice.
Print Assumptions C13_list_setslice.
Print Assumptions C13_list_items.
Print Assumptions C13_list_ops_never_panic.
