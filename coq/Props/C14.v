(* C14 -- strings are sequences of code points regardless of their UTF-8 storage.
   Theorems about the byte-offset arithmetic of py/string.go (len, pos, slice) modelled over
   byte lists (Model/Utf8.v), for every string of scalar values. *)
From Coq Require Import List Bool Arith NArith.
Import ListNotations.
From GP Require Import Model.Utf8 Proofs.Utf8.

Theorem C14_len_counts_code_points : forall cps, Forall scalar cps -> rune_count (encode cps) = length cps.
Proof. exact rune_count_encode. Qed.

Theorem C14_pos_is_prefix_width : forall cps, Forall scalar cps -> forall n, (n <= length cps)%nat ->
  pos (encode cps) n = length (encode (firstn n cps)).
Proof. exact pos_encode. Qed.

Theorem C14_slice_by_code_points : forall cps start stop, Forall scalar cps ->
  (start < stop)%nat -> (stop <= length cps)%nat ->
  let bs := encode cps in
  let startI := pos bs start in
  firstn (pos (skipn startI bs) (stop - start)) (skipn startI bs)
  = encode (firstn (stop - start) (skipn start cps)).
Proof. exact slice_encode. Qed.

Example C14_nonvacuous :
  let s := [97; 233; 8364; 128512; 98]%N in   (* a, e-acute, euro sign, grinning face, b *)
  rune_count (encode s) = 5%nat /\ length (encode s) = 11%nat /\
  str_slice (encode s) 1 4 5 = encode [233; 8364; 128512]%N.
Proof. vm_compute. auto. Qed.

Print Assumptions C14_len_counts_code_points.
Print Assumptions C14_pos_is_prefix_width.
Print Assumptions C14_slice_by_code_points.
