(* C14 -- strings are sequences of code points regardless of their UTF-8 storage.
   Theorems about the byte-offset arithmetic of py/string.go (len, pos, slice) modelled over
   byte lists (Model/Utf8.v), for every string of scalar values. *)
From Coq Require Import List Bool Arith NArith.
Import ListNotations.
From GP Require Import Model.Utf8 Proofs.Utf8.
From GP Require Model.Escape Model.Repr Proofs.Repr.

Theorem C14_len_counts_code_points : forall cps, Forall scalar cps -> rune_count (encode cps) = length cps.
Proof. exact rune_count_encode. Qed.

Theorem C14_pos_is_prefix_width : forall cps, Forall scalar cps -> forall n, (n <= length cps)%nat ->
  pos (encode cps) n = length (encode (firstn n cps)).
Proof. exact pos_encode. Qed.

Theorem C14_slice_by_code_points : forall cps start stop, Forall scalar cps ->
  (start < stop)%nat -> (stop <= length cps)%nat ->
  let bs := encode cps in
  let startI := pos bs start in
  firstn (pos (skipn startI bs) (stop - start)) (skipn startI bs)
  = encode (firstn (stop - start) (skipn start cps)).
Proof. exact slice_encode. Qed.

(* repr round-trips through the compiler, at the token level: for every string of scalar values -- and whatever
   strconv.IsPrint answers for each character -- the text StringEscape produces (Model/Repr.v), followed by
   anything, is read back by the lexer's end-of-literal scan and the escape decoder (Model/Escape.v) as exactly
   that string, leaving exactly what followed.  (An empty literal directly followed by its own quote character
   would open a triple-quoted string: excluded, and no repr of a container produces it.) *)
Theorem C14_repr_eval_roundtrip : forall (printable : N -> bool) (s rest : list N),
  Forall (fun c => Model.Escape.scalar c = true) s ->
  (s = [] -> hd_error rest <> Some (Model.Repr.quote_of s)) ->
  Model.Repr.eval_literal (Model.Repr.repr_str printable s ++ rest) = Some (s, rest).
Proof. intros. apply Proofs.Repr.repr_roundtrip; assumption. Qed.

Example C14_repr_nonvacuous :
  Model.Repr.repr_str (fun c => N.eqb c 233) [97; 39; 233; 173; 10]%N = [34; 97; 39; 233; 92; 120; 97; 100; 92; 110; 34]%N /\
  Model.Repr.eval_literal ([34; 97; 39; 233; 92; 120; 97; 100; 92; 110; 34] ++ [43; 49])%N = Some ([97; 39; 233; 173; 10], [43; 49])%N.
Proof. vm_compute. split; reflexivity. Qed.

Example C14_nonvacuous :
  let s := [97; 233; 8364; 128512; 98]%N in   (* a, e-acute, euro sign, grinning face, b *)
  rune_count (encode s) = 5%nat /\ length (encode s) = 11%nat /\
  str_slice (encode s) 1 4 5 = encode [233; 8364; 128512]%N.
Proof. vm_compute. auto. Qed.

Print Assumptions C14_len_counts_code_points.
Print Assumptions C14_pos_is_prefix_width.
Print Assumptions C14_slice_by_code_points.
Print Assumptions C14_repr_eval_roundtrip.

(* Searching (Model/StrSearch.v): find / startswith with [start[, end]] windows / `in`, computed by
   py/string.go over the UTF-8 storage with byte-level strings.Index / HasPrefix, equal Python's
   rule over code points -- for all strings of scalar values and all integer bounds: UTF-8 is
   prefix-free and self-synchronising, so no match starts inside a character, and the reported
   position is a code-point index.  cp_find's `index_from` is the least occurrence in the window. *)
From Coq Require Import ZArith.
From GP Require Model.StrSearch Proofs.StrSearch Proofs.StrCount Proofs.StrSuffix.
Theorem C14_find_by_code_points : forall s sub beg end_, Forall scalar s -> Forall scalar sub ->
  Model.StrSearch.find_model (encode s) (encode sub) beg end_ = Model.StrSearch.cp_find s sub beg end_.
Proof. exact Proofs.StrSearch.find_encode. Qed.

Theorem C14_find_is_least_occurrence : forall sub l i, Model.StrSearch.index_from sub l 0 = Some i ->
  (i <= length l)%nat /\ Model.StrSearch.is_prefix sub (skipn i l) = true /\
  forall j, (j < i)%nat -> Model.StrSearch.is_prefix sub (skipn j l) = false.
Proof. exact Proofs.StrSearch.index_from_least. Qed.

Theorem C14_find_none_means_absent : forall sub l, Model.StrSearch.index_from sub l 0 = None ->
  forall j, (j <= length l)%nat -> Model.StrSearch.is_prefix sub (skipn j l) = false.
Proof. exact Proofs.StrSearch.index_from_none. Qed.

Theorem C14_startswith_by_code_points : forall s sub beg end_, Forall scalar s -> Forall scalar sub ->
  Model.StrSearch.startswith_model (encode s) (encode sub) beg end_ = Model.StrSearch.cp_startswith s sub beg end_.
Proof. exact Proofs.StrSearch.startswith_encode. Qed.

Theorem C14_contains_by_code_points : forall s sub, Forall scalar s -> Forall scalar sub ->
  (match Model.StrSearch.index_from (encode sub) (encode s) 0 with Some _ => true | None => false end) =
  (match Model.StrSearch.index_from sub s 0 with Some _ => true | None => false end).
Proof. exact Proofs.StrSearch.contains_encode. Qed.

(* count: non-overlapping occurrences (leftmost first) in the window, counted over the bytes = counted over
   code points; the empty string is counted once more than the window has characters *)
Theorem C14_count_by_code_points : forall s sub beg end_, Forall scalar s -> Forall scalar sub ->
  Model.StrSearch.count_model (encode s) (encode sub) beg end_ = Model.StrSearch.cp_count s sub beg end_.
Proof. exact Proofs.StrCount.count_model_encode. Qed.

Theorem C14_endswith_by_code_points : forall s sub beg end_, Forall scalar s -> Forall scalar sub ->
  Model.StrSearch.endswith_model (encode s) (encode sub) beg end_ = Model.StrSearch.cp_endswith s sub beg end_.
Proof. exact Proofs.StrSuffix.endswith_encode. Qed.

Example C14_find_nonvacuous :
  let s := [97; 233; 8364; 128512; 233; 98]%N in
  Model.StrSearch.find_model (encode s) (encode [233]%N) 2%Z 100%Z = 4%Z /\
  Model.StrSearch.find_model (encode s) (encode [233]%N) (-5)%Z (-2)%Z = 1%Z /\
  Model.StrSearch.find_model (encode s) (encode [8364; 128512]%N) 0%Z 3%Z = (-1)%Z /\
  Model.StrSearch.count_model (encode s) (encode [233]%N) 0%Z 6%Z = 2%Z /\
  Model.StrSearch.startswith_model (encode s) (encode [128512; 233]%N) 3%Z (-1)%Z = true /\
  Model.StrSearch.endswith_model (encode s) (encode [8364; 128512]%N) 1%Z (-2)%Z = true /\
  Model.StrSearch.endswith_model (encode s) (encode [172]%N) 0%Z 3%Z = false.
Proof. vm_compute. repeat split; reflexivity. Qed.

Print Assumptions C14_find_by_code_points.
Print Assumptions C14_find_is_least_occurrence.
Print Assumptions C14_find_none_means_absent.
Print Assumptions C14_startswith_by_code_points.
Print Assumptions C14_contains_by_code_points.
Print Assumptions C14_count_by_code_points.
Print Assumptions C14_endswith_by_code_points.
