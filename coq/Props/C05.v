(* C05 -- iteration ends only on StopIteration (class or instance); every other exception
   propagates.  The termination tests of the Go code are REGENERATED into Gen/IterTests.v on
   every run; the theorem about consumers is generic, the per-run obligation is that every
   extracted site uses a sound test. *)
From Coq Require Import List Bool String.
Import ListNotations.
From GP Require Import Model.Iter.
From GP Require Gen.IterTests.

Theorem C05_consumer_sound : forall st, sound_style st = true ->
  forall p acc, consume st p acc = consumer_spec p acc.
Proof.
  intros st Hs p. induction p as [|a r IH]; intros acc; simpl; auto.
  destruct a; auto; destruct st; simpl in Hs; try discriminate; auto.
Qed.

(* and the two other styles are wrong, each on a one-element history *)
Theorem C05_identity_refuted : consume ByIdentity [StopInstance] [] <> consumer_spec [StopInstance] [].
Proof. simpl. discriminate. Qed.
Theorem C05_anyerror_refuted : consume AnyError [Raise 7] [] <> consumer_spec [Raise 7] [].
Proof. simpl. discriminate. Qed.

(* per-run obligation over the regenerated inventory of termination tests *)
Definition site_ok (s : string * string * style) : bool := sound_style (snd s).
Theorem C05_all_sites_sound : forallb site_ok Gen.IterTests.sites = true.
Proof. vm_compute. reflexivity. Qed.

Corollary C05_every_consumer : forall s, In s Gen.IterTests.sites ->
  forall p acc, consume (snd s) p acc = consumer_spec p acc.
Proof.
  intros s Hs. apply C05_consumer_sound. pose proof C05_all_sites_sound as A.
  rewrite forallb_forall in A. exact (A s Hs).
Qed.

Example C05_nonvacuous : consume ByIsException [Item 1; Item 2; StopInstance; Item 3] [] = Done [1; 2]
  /\ consume ByIsException [Item 1; Raise 9] [] = Failed [1] (Raise 9)
  /\ (Datatypes.length Gen.IterTests.sites >= 10)%nat.
Proof. repeat split. vm_compute. repeat constructor. Qed.

Print Assumptions C05_consumer_sound.
Print Assumptions C05_all_sites_sound.
Print Assumptions C05_every_consumer.
