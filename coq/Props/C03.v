(* C03 -- name resolution: the outcome of the scope analysis never depends on the order in
   which names happen to be analysed.  Model/Symtable.v models symtable.AnalyzeName (tied
   exhaustively to the Go method by the correspondence run) and the map-ordered loop of
   AnalyzeBlock. *)
From Coq Require Import List Bool Arith NArith Permutation.
Import ListNotations.
From GP Require Import Model.Symtable Proofs.Symtable.

(* for every block, every symbol map (distinct names) and every two iteration orders of
   that map: the same per-name sets and scopes, the same Free flag, the same accept/reject *)
Theorem C03_order_independent : forall bound_nil nested syms syms',
  Permutation syms syms' -> NoDup (map fst syms) ->
  forall b, beq (analyze_block bound_nil nested b syms) (analyze_block bound_nil nested b syms').
Proof. exact analyze_block_order_independent. Qed.

(* declarations the language forbids are rejected whatever else is known about the name *)
Theorem C03_forbidden_rejected : forall flags bn ne s,
  (has flags DefGlobal = true /\ has flags DefParam = true) \/
  (has flags DefGlobal = true /\ has flags DefNonlocal = true) \/
  (has flags DefGlobal = false /\ has flags DefNonlocal = true /\ has flags DefParam = true) \/
  (has flags DefGlobal = false /\ has flags DefNonlocal = true /\ (bn = true \/ in_bound s = false)) ->
  analyze_name flags bn ne s = None.
Proof.
  intros flags bn ne s H. unfold analyze_name.
  destruct H as [[A B]|[[A B]|[[A [B C]]|[A [B C]]]]]; rewrite ?A, ?B, ?C; auto.
  - destruct (has flags DefParam); auto.
  - destruct (has flags DefParam); auto. destruct C as [->| ->]; auto. destruct bn; auto.
Qed.

(* a name bound in the block is local there and shadows any global declaration of an
   enclosing block; a name bound only in an enclosing function is free *)
Theorem C03_binding_rule : forall flags bn ne s,
  has flags DefGlobal = false -> has flags DefNonlocal = false ->
  (has flags DefBound = true -> exists s', analyze_name flags bn ne s = Some (s', false) /\ scope s' = ScopeLocal /\ in_global s' = false) /\
  (has flags DefBound = false -> bn = false -> in_bound s = true ->
     exists s', analyze_name flags bn ne s = Some (s', true) /\ scope s' = ScopeFree).
Proof.
  intros flags bn ne s G N. unfold analyze_name. rewrite G, N. split.
  - intros B. rewrite B. eexists; split; [reflexivity|]. simpl. auto.
  - intros B -> I. rewrite B, I. simpl. eexists; split; [reflexivity|]. reflexivity.
Qed.

Example C03_nonvacuous :
  let b0 := {| names := fun _ => {| in_bound := true; in_local := false; in_free := false; in_global := false; scope := 0 |};
               blk_free := false; rejected := false |} in
  scope (names (analyze_block false true b0 [(1, DefLocal); (2, DefUse); (3, DefGlobal)]) 2) = ScopeFree /\
  scope (names (analyze_block false true b0 [(3, DefGlobal); (2, DefUse); (1, DefLocal)]) 1) = ScopeLocal.
Proof. vm_compute. auto. Qed.

Print Assumptions C03_order_independent.
Print Assumptions C03_forbidden_rejected.
Print Assumptions C03_binding_rule.
