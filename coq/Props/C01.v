(* C01 -- expressions evaluate once, left to right, with Python's grouping.

   Model/ExprOrder.v: the code compile.go emits for an expression / assignment (compile,
   compile_stmt) and the VM's stack discipline for the opcodes involved (exec), against Python's
   rule written as a recursive evaluator that returns the value and the sequence of evaluation
   events (eval, run_stmt).  Primitive operations are uninterpreted: the theorems hold whatever
   the operators compute.  Theorems, for EVERY expression / statement of the modelled forms:
     - running the emitted code leaves exactly the value of Python's rule on the stack and
       appends exactly its events, in its order (operands left to right, operator after its
       operands, and/or short circuit, conditional expressions evaluate one branch, comparison
       chains evaluate each operand once and stop at the first false comparison);
     - without short-circuit forms every operand is evaluated exactly once, in textual order;
     - assignments evaluate the right-hand side, then the targets left to right; augmented
       assignments evaluate the target's sub-expressions once, load, evaluate the right-hand
       side, apply the in-place operator, store.
   Grouping (precedence/associativity) is the parser's: the correspondence check takes the tree
   of each generated text from CPython's parser and demands that the real compiler's bytecode is
   the model's code for that tree. *)
From Coq Require Import List ZArith.
Import ListNotations.
From GP Require Import Model.ExprOrder Proofs.ExprOrder.

Theorem C01_expression_code_follows_pythons_rule : forall leafval prim nameval e rest stk log fuel,
  exec leafval prim nameval (length (compile e) + fuel) (compile e ++ rest) stk log =
  exec leafval prim nameval fuel rest (fst (eval leafval prim e) :: stk) (log ++ snd (eval leafval prim e)).
Proof. intros. apply compile_correct. Qed.

Theorem C01_whole_expression : forall leafval prim nameval e,
  exec leafval prim nameval (length (compile e)) (compile e) [] [] = Some ([fst (eval leafval prim e)], snd (eval leafval prim e)).
Proof. intros. apply run_expression. Qed.

Theorem C01_each_operand_once_in_order : forall leafval prim e, strict e = true ->
  leaf_ids (snd (eval leafval prim e)) = leaves e.
Proof. intros. apply strict_evaluates_each_leaf_once_in_order. assumption. Qed.

Theorem C01_assignment_code_follows_pythons_rule : forall leafval prim nameval s,
  exec leafval prim nameval (length (compile_stmt s)) (compile_stmt s) [] [] = Some ([], run_stmt leafval prim nameval s).
Proof. intros. apply stmt_correct. Qed.

(* calls with any number of positional and keyword arguments, and tuple/list/set displays of any length: the
   operands (callable, arguments, keyword values -- keyword names are constants without events) are evaluated
   once each, in the order written, then the primitive is applied to all of them *)
Theorem C01_nary_form_code_follows_pythons_rule : forall leafval prim nameval tag os rest stk log fuel,
  exec leafval prim nameval (length (compile_nary tag os) + fuel) (compile_nary tag os ++ rest) stk log =
  exec leafval prim nameval fuel rest (fst (eval_nary leafval prim tag os) :: stk) (log ++ snd (eval_nary leafval prim tag os)).
Proof. intros. apply compile_nary_correct. Qed.

Example C01_nary_example :
  let leafval := fun i => Z.of_nat i in
  let prim := fun (t : nat) (a : list Z) => Z.of_nat (length a) in
  snd (eval_nary leafval prim 602 [OExpr (Leaf 1); OExpr (Leaf 2); OConst 9001; OExpr (Leaf 3); OConst 9002; OExpr (Prim2 23 (Leaf 4) (Leaf 5))])
    = [ELeaf 1; ELeaf 2; ELeaf 3; ELeaf 4; ELeaf 5; EPrim 23 [4; 5]%Z; EPrim 602 [1; 2; 9001; 3; 9002; 2]%Z] /\
  compile_nary 602 [OExpr (Leaf 1); OExpr (Leaf 2); OConst 9001; OExpr (Leaf 3)] = [ILeaf 1; ILeaf 2; IConst 9001; ILeaf 3; IPrim 602 4].
Proof. vm_compute. split; reflexivity. Qed.

(* non-vacuity: t(1) < t(2) <= t(3) with the first comparison false stops after t(2);
   t(1)[t(2)] += t(3) evaluates t(1), t(2) once, then t(3) *)
Example C01_examples :
  let leafval := fun i => Z.of_nat i in
  let prim := fun (t : nat) (a : list Z) => match t, a with 300%nat, [x; y] => if Z.ltb y x then 1%Z else 0%Z | _, _ => 7%Z end in
  snd (eval leafval prim (Cmp (Leaf 1) (CMore 300 (Leaf 2) (CMore 301 (Leaf 3) CEnd)))) = [ELeaf 1; ELeaf 2; EPrim 300 [1; 2]%Z] /\
  compile (Cmp (Leaf 1) (CMore 300 (Leaf 2) (CMore 301 (Leaf 3) CEnd))) =
    [ILeaf 1; ILeaf 2; IDupTop; IRotThree; IPrim 300 2; IJumpIfFalseOrPop 3; ILeaf 3; IPrim 301 2; IJumpForward 2; IRotTwo; IPopTop] /\
  run_stmt leafval prim (fun _ => 0%Z) (AugSub (Leaf 1) (Leaf 2) 55 (Leaf 3)) =
    [ELeaf 1; ELeaf 2; EPrim 25 [1; 2]%Z; ELeaf 3; EPrim 55 [7; 3]%Z; EStoreSub 1 2 7].
Proof. vm_compute. repeat split. Qed.

Print Assumptions C01_expression_code_follows_pythons_rule.
Print Assumptions C01_whole_expression.
Print Assumptions C01_each_operand_once_in_order.
Print Assumptions C01_assignment_code_follows_pythons_rule.
Print Assumptions C01_nary_form_code_follows_pythons_rule.
