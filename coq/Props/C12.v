(* C12 -- Emitted code objects are well-formed and stack-safe on every path.
   Verified validator: for every code object the compiler emits (checked per object, per run,
   by vm_compute of Model.Verify.check_code), a certificate closed under the abstract step of
   the VM covers every reachable abstract state. *)
From Coq Require Import List Bool Arith NArith String.
Import ListNotations.
From GP Require Import Gen.Opcodes Model.Verify Proofs.Verify.

Theorem C12_certificate_sound : forall ci ct S, closed ci ct S = true ->
  forall s, reach ci ct s ->
    In s S /\ state_ok ci s = true /\ (forall m, ~ In (Bad m) (astep ci ct s)).
Proof. exact closed_sound. Qed.

(* on every path: the stack never exceeds co_stacksize (nor underflows: that would be a Bad
   outcome), every pc is an instruction boundary inside the code, and the (depth, block
   depth) pair is one the certificate predicts *)
Theorem C12_certificate_safe : forall ci ct S, closed ci ct S = true ->
  forall s, reach ci ct s ->
    length (a_stack s) <= c_stacksize ci /\
    (exists i, find_instr (c_instrs ci) (a_pc s) = Some i) /\
    predicted S (a_pc s) (length (a_stack s)) (length (a_blocks s)) = true.
Proof. exact closed_safe. Qed.

Theorem C12_decode_contiguous : forall fuel code addr ext l,
  decode fuel code addr ext = Some l ->
  forall i, In i l -> (addr <= i_addr i /\ i_addr i < i_next i /\ i_next i <= addr + N.of_nat (length code))%N.
Proof. exact decode_contiguous. Qed.

(* non-vacuity: `x = 1` (LOAD_CONST 0; STORE_NAME 0; LOAD_CONST 1; RETURN_VALUE) verifies,
   and a code object that pops an empty stack does not *)
Example C12_accepts : check_code [100; 0; 0; 90; 0; 0; 100; 1; 0; 83] 2 [false; true] 1 0 0 1 [] [(0%N, 0, 0); (3%N, 1, 0)] = ""%string.
Proof. vm_compute. reflexivity. Qed.
Example C12_rejects : check_code [1; 100; 0; 0; 83] 1 [true] 0 0 0 1 [] [] <> ""%string.
Proof. vm_compute. discriminate. Qed.

Print Assumptions C12_certificate_sound.
Print Assumptions C12_certificate_safe.
Print Assumptions C12_decode_contiguous.
