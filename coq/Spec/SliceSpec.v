(* Python's slice semantics (language reference, "slicings" / slice.indices), closed form. *)
From Coq Require Import ZArith Bool List Lia.
Import ListNotations.
Open Scope Z_scope.

Definition norm_neg (i len : Z) : Z := if i <? 0 then i + len else i.
Definition clampZ (lo hi x : Z) : Z := Z.max lo (Z.min hi x).

(* first index a, exclusive bound b, step s; None = ValueError (zero step) *)
Definition slice_bounds (len : Z) (start stop step : option Z) : option (Z * Z * Z) :=
  let s := match step with None => 1 | Some s => s end in
  if s =? 0 then None
  else if 0 <? s then
    Some (match start with None => 0 | Some i => clampZ 0 len (norm_neg i len) end,
          match stop with None => len | Some j => clampZ 0 len (norm_neg j len) end, s)
  else
    Some (match start with None => len - 1 | Some i => clampZ (-1) (len - 1) (norm_neg i len) end,
          match stop with None => -1 | Some j => clampZ (-1) (len - 1) (norm_neg j len) end, s).

(* number of k >= 0 with a + k*s strictly before b in the direction of s *)
Definition slice_count (a b s : Z) : Z :=
  if 0 <? s then (if b <=? a then 0 else (b - a - 1) / s + 1)
  else (if a <=? b then 0 else (a - b - 1) / (- s) + 1).

Definition slice_indices (len : Z) (start stop step : option Z) : option (list Z) :=
  match slice_bounds len start stop step with
  | None => None
  | Some (a, b, s) => Some (map (fun k => a + Z.of_nat k * s) (seq 0 (Z.to_nat (slice_count a b s))))
  end.

(* the count is what the definition of a slicing says: exactly the k with a + k*s before b *)
Lemma slice_count_spec a b s k : s <> 0 -> 0 <= k ->
  (k < slice_count a b s <-> (if 0 <? s then a + k * s < b else a + k * s > b)).
Proof.
  intros Hs Hk. unfold slice_count. destruct (0 <? s) eqn:S.
  - apply Z.ltb_lt in S. destruct (b <=? a) eqn:E.
    + apply Z.leb_le in E. split; [lia|nia].
    + apply Z.leb_gt in E.
      pose proof (Z.div_mod (b - a - 1) s ltac:(lia)). pose proof (Z.mod_pos_bound (b - a - 1) s S). split; nia.
  - apply Z.ltb_ge in S. assert (s < 0) by lia. destruct (a <=? b) eqn:E.
    + apply Z.leb_le in E. split; [lia|nia].
    + apply Z.leb_gt in E.
      pose proof (Z.div_mod (a - b - 1) (- s) ltac:(lia)). pose proof (Z.mod_pos_bound (a - b - 1) (- s) ltac:(lia)).
      split; nia.
Qed.

(* sequence-level reference operations over lists *)
Definition getslice {A} (d : A) (l : list A) (idx : list Z) : list A :=
  map (fun i => nth (Z.to_nat i) l d) idx.

Definition norm_index (len i : Z) : option Z :=
  let j := if i <? 0 then i + len else i in
  if (0 <=? j) && (j <? len) then Some j else None.   (* None = IndexError *)

(* range(start, stop, step) *)
Definition range_len (start stop step : Z) : Z :=
  if 0 <? step then (if stop <=? start then 0 else (stop - start - 1) / step + 1)
  else (if start <=? stop then 0 else (start - stop - 1) / (- step) + 1).
