(* Python's sequence model for the element operations of lists (language reference, "Mutable
   sequence types"; data model, "slicings"), stated over the selected index list of
   Spec/SliceSpec.v.  Nothing here mentions how the implementation loops. *)
From Coq Require Import ZArith Bool List.
Import ListNotations.
Open Scope Z_scope.

Definition positions {A} (off : nat) (l : list A) : list (Z * A) :=
  combine (map Z.of_nat (seq off (length l))) l.
Definition mem (i : Z) (idx : list Z) : bool := existsb (Z.eqb i) idx.

(* s[idx]: the selected elements, in selection order *)
Definition py_get {A} (l : list A) (idx : list Z) (r : list A) : Prop :=
  Forall2 (fun i x => 0 <= i /\ nth_error l (Z.to_nat i) = Some x) idx r.

(* del s[idx]: the elements at positions that are not selected, in their original order *)
Definition py_del {A} (l : list A) (idx : list Z) : list A :=
  map snd (filter (fun p => negb (mem (fst p) idx)) (positions 0 l)).

(* s[i:j] = t  (step 1): the slice is replaced by the contents of t *)
Definition py_set1 {A} (l new : list A) (a b : Z) : list A :=
  firstn (Z.to_nat a) l ++ new ++ skipn (Z.to_nat (Z.max a b)) l.

(* s[i:j:k] = t: same length; the k-th selected position holds t[k]; every other position is unchanged *)
Definition py_setx {A} (l new : list A) (idx : list Z) (r : list A) : Prop :=
  length r = length l /\
  (forall k i v, nth_error idx k = Some i -> nth_error new k = Some v -> nth_error r (Z.to_nat i) = Some v) /\
  (forall p, ~ In (Z.of_nat p) idx -> nth_error r p = nth_error l p).
