(* What Python defines for integer operations: exact arithmetic on Z.  Written from the
   language reference, independently of gpython's code. *)
From Coq Require Import ZArith Bool String.
Open Scope Z_scope.

Inductive bop := OAdd | OSub | OMul | OFloorDiv | OMod | ODivMod | OLshift | ORshift
               | OAnd | OOr | OXor | OLt | OLe | OEq | ONe | OGt | OGe | OPow.
Inductive uop := UNeg | UAbs | UInvert | UTruth.

(* abstract results: an integer VALUE (representation-free), a bool, a pair, an exception
   class, or "a float" (negative exponent; C15's business) *)
Inductive sres := SInt (z : Z) | SBool (b : bool) | SPair (q r : Z) | SErr (cls : string) | SFloat.

Definition spec_binop (op : bop) (a b : Z) : sres :=
  match op with
  | OAdd => SInt (a + b) | OSub => SInt (a - b) | OMul => SInt (a * b)
  | OFloorDiv => if b =? 0 then SErr "ZeroDivisionError" else SInt (a / b)
  | OMod => if b =? 0 then SErr "ZeroDivisionError" else SInt (a mod b)
  | ODivMod => if b =? 0 then SErr "ZeroDivisionError" else SPair (a / b) (a mod b)
  | OLshift => if b <? 0 then SErr "ValueError" else SInt (a * 2 ^ b)
  | ORshift => if b <? 0 then SErr "ValueError" else SInt (a / 2 ^ b)
  | OAnd => SInt (Z.land a b) | OOr => SInt (Z.lor a b) | OXor => SInt (Z.lxor a b)
  | OLt => SBool (a <? b) | OLe => SBool (a <=? b) | OEq => SBool (a =? b)
  | ONe => SBool (negb (a =? b)) | OGt => SBool (a >? b) | OGe => SBool (a >=? b)
  | OPow => if b <? 0 then (if a =? 0 then SErr "ZeroDivisionError" else SFloat) else SInt (a ^ b)
  end.

Definition spec_unop (op : uop) (a : Z) : sres :=
  match op with
  | UNeg => SInt (- a) | UAbs => SInt (Z.abs a) | UInvert => SInt (- a - 1)
  | UTruth => SBool (negb (a =? 0))
  end.

(* pow(a, b, m), Python 3.4 *)
Definition spec_pow3 (a b m : Z) : sres :=
  if b <? 0 then SErr "TypeError"
  else if m =? 0 then SErr "ValueError"
  else SInt ((a ^ b) mod m).
