(* Python's argument binding rule (language reference 6.3.4 "Calls"), stated per parameter slot and
   without any loop over the call: which value each parameter receives, and exactly when the call is a
   TypeError.  Value ids as in Model/Bind.v: positional argument i has id 100+i, the keyword argument
   for name k has id 200+k, the default of the parameter named k has id 300+k. *)
From Coq Require Import List Bool Arith.
Import ListNotations.
From GP Require Import Model.Bind.

Section Spec.
Variable s : sig.
Variable nargs : nat.
Variable kws : list nat.

Definition sp_argc := length (s_pos s).
Definition sp_names := s_pos s ++ s_kwonly s.
Definition sp_n := Nat.min nargs sp_argc.           (* positional arguments that land in named slots *)
Definition has (k : nat) (l : list nat) : bool := existsb (Nat.eqb k) l.

(* the value of parameter slot j, or None when nothing supplies it *)
Definition spec_slot (j : nat) : option nat :=
  let name := nth j sp_names 0 in
  if j <? sp_n then Some (100 + j)                                           (* filled positionally *)
  else if has name kws then Some (200 + name)                                (* filled by keyword *)
  else if j <? sp_argc
       then (if sp_argc - s_ndefs s <=? j then Some (300 + name) else None)  (* trailing positional defaults *)
       else (if has name (s_kwdefs s) then Some (300 + name) else None).     (* keyword-only defaults *)

(* a keyword is in error when it names a parameter already filled positionally, or names no parameter
   and there is no ** parameter to collect it *)
Definition kw_error (k : nat) : bool :=
  match index_of k sp_names with
  | Some j => j <? sp_n
  | None => negb (s_kwarg s)
  end.

Definition spec_bind : bres :=
  if (sp_argc <? nargs) && negb (s_vararg s) then BTypeError                 (* too many positional arguments *)
  else if existsb kw_error kws then BTypeError
  else
    let slots := map spec_slot (seq 0 (length sp_names)) in
    if forallb (fun v => match v with Some _ => true | None => false end) slots
    then Bound (map (fun v => match v with Some x => x | None => 0 end) slots)
               (if s_vararg s then Some (map (fun i => 100 + i) (seq sp_n (nargs - sp_n))) else None)
               (if s_kwarg s then Some (map (fun k => (k, 200 + k)) (filter (fun k => match index_of k sp_names with None => true | Some _ => false end) kws)) else None)
    else BTypeError.                                                           (* a parameter without value *)
End Spec.
